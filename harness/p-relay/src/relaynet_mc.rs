//! E2 explicit-state search over stimulus histories of the relay registry (`relaynet`), with the
//! reference model of C04 (forwarding) and C06 (registry) evaluated on every execution.
//!
//! A history is a list of steps; each step is a stimulus plus a flag saying whether the runtime is
//! run to quiescence afterwards. Consecutive unsettled steps form a *group* whose stimuli are all
//! applied before any actor runs (so their effects race inside the relay, ordered by wake order).
//! Singleton groups are checked against the exact expected frames; multi-stimulus groups against
//! the safety clauses only (what may be delivered where), and every execution ends with a probe
//! phase that compares the relay's registry with the model's (differential oracle).

use crate::relaynet::*;
use serde::{Deserialize, Serialize};
use std::collections::{BTreeMap, BTreeSet};
use vh_engine::*;

#[derive(Clone, Serialize, Deserialize, Debug, PartialEq, Eq, Hash, PartialOrd, Ord)]
pub enum Op {
    Connect { id: usize, v1: bool },
    Close(usize),
    Err(usize),
    Send { from: usize, to: usize, batch: bool },
    /// explicit datagram shape (shape pass): ECN bits, segment-size field (0 = none), contents length
    SendShape { from: usize, to: usize, ecn: u8, seg: u16, len: u16 },
    Disc { id: usize, conn: Option<usize> },
    /// `Clients::shutdown()` polled once by hand (entries removed, every connection cancelled, no actor has run
    /// yet), then driven to completion in the background
    Shutdown,
}

#[derive(Clone, Serialize, Deserialize, Debug, PartialEq, Eq, Hash, PartialOrd, Ord)]
pub struct Step {
    pub op: Op,
    pub settle: bool,
}

#[derive(Clone, Copy, PartialEq, Eq, Debug, PartialOrd, Ord, Hash)]
enum Tri {
    Yes,
    Maybe,
}

#[derive(Clone, Debug)]
struct SendRec {
    from_conn: usize,
    src: usize,
    to: usize,
    ecn: u8,
    seg: Option<u16>,
    contents: Vec<u8>,
    /// connections of `to` that were the active one at some point between the stimulus and quiescence
    window_active: BTreeSet<usize>,
    /// exact mode: must be delivered exactly at this connection (None = must be dropped)
    must: Option<Option<usize>>,
    delivered: Option<usize>,
    group: usize,
}

#[derive(Default, Clone)]
struct Model {
    /// id -> open connections in registration order (active = last)
    reg: BTreeMap<usize, Vec<usize>>,
    sent_to: BTreeMap<usize, BTreeMap<usize, Tri>>,
    ended: BTreeSet<usize>,
    client_closed: BTreeSet<usize>,
    conn_id: Vec<usize>,
    conn_v1: Vec<bool>,
    connects_per_id: BTreeMap<usize, usize>,
}

impl Model {
    fn active(&self, id: usize) -> Option<usize> {
        self.reg.get(&id).and_then(|l| l.last().copied())
    }
}

pub struct Limits {
    /// deviation bound: how many stimuli of a history may be applied without running the relay to quiescence
    pub max_unsettled: usize,
    pub max_conns: BTreeMap<usize, usize>,
    pub with_err: bool,
    pub with_v1: bool,
    pub with_shutdown: bool,
    pub dsts: Vec<usize>,
}

pub fn menu(h: &[Step], lim: &Limits) -> Vec<Step> {
    // derive the model's view of which connections exist/are open from the history (pure function)
    let mut m = Model::default();
    for s in h {
        apply_structural(&mut m, &s.op);
    }
    let mut ops = Vec::new();
    for (&id, &maxc) in &lim.max_conns {
        if m.connects_per_id.get(&id).copied().unwrap_or(0) < maxc {
            ops.push(Op::Connect { id, v1: false });
            if lim.with_v1 {
                ops.push(Op::Connect { id, v1: true });
            }
        }
    }
    let open: Vec<usize> = (0..m.conn_id.len()).filter(|c| !m.ended.contains(c) && !m.client_closed.contains(c)).collect();
    for &c in &open {
        ops.push(Op::Close(c));
        if lim.with_err {
            ops.push(Op::Err(c));
        }
        for &to in &lim.dsts {
            ops.push(Op::Send { from: c, to, batch: false });
        }
        // one batch shape per sender (contents/ECN/segment-size preservation)
        if let Some(&to) = lim.dsts.first() {
            ops.push(Op::Send { from: c, to, batch: true });
        }
    }
    for &id in lim.max_conns.keys() {
        ops.push(Op::Disc { id, conn: None });
    }
    for c in 0..m.conn_id.len() {
        // includes stale requests for connections that are already gone
        ops.push(Op::Disc { id: m.conn_id[c], conn: Some(c) });
    }
    if lim.with_shutdown && !m.conn_id.is_empty() && !h.iter().any(|s| s.op == Op::Shutdown) {
        ops.push(Op::Shutdown);
    }
    let unsettled_so_far = h.iter().filter(|s| !s.settle).count();
    let mut out = Vec::new();
    for op in ops {
        out.push(Step { op: op.clone(), settle: true });
        if unsettled_so_far < lim.max_unsettled {
            out.push(Step { op, settle: false });
        }
    }
    out
}

/// structural effect of an op on "which connections exist / were closed by the client"; the registry
/// effect of endings is applied at quiescence (see `Exec`).
fn apply_structural(m: &mut Model, op: &Op) {
    match op {
        Op::Connect { id, v1 } => {
            m.conn_id.push(*id);
            m.conn_v1.push(*v1);
            *m.connects_per_id.entry(*id).or_insert(0) += 1;
            m.reg.entry(*id).or_default().push(m.conn_id.len() - 1);
        }
        Op::Close(c) | Op::Err(c) => {
            m.client_closed.insert(*c);
            end_conn_quiet(m, *c);
        }
        Op::Disc { id, conn } => {
            let targets: Vec<usize> = m.reg.get(id).cloned().unwrap_or_default().into_iter().filter(|c| conn.is_none() || conn == &Some(*c)).collect();
            for c in targets {
                end_conn_quiet(m, c);
            }
        }
        Op::Send { .. } | Op::SendShape { .. } => {}
        Op::Shutdown => {
            let all: Vec<usize> = m.reg.values().flatten().copied().collect();
            for c in all {
                end_conn_quiet(m, c);
            }
        }
    }
}
fn end_conn_quiet(m: &mut Model, c: usize) {
    let id = m.conn_id[c];
    if let Some(l) = m.reg.get_mut(&id) {
        l.retain(|x| *x != c);
        if l.is_empty() {
            m.reg.remove(&id);
        }
    }
    m.ended.insert(c);
}

#[derive(Debug, Serialize)]
pub struct Violation {
    pub prop: &'static str,
    pub what: String,
    pub at_step: usize,
}

pub struct ExecResult {
    pub key: String,
    pub violations: Vec<Violation>,
    pub delivered: usize,
    pub dropped: usize,
    pub notices: usize,
}

/// Execute a history against the real relay registry and check C04 + C06.
pub fn exec(history: &[Step]) -> ExecResult {
    let rt = runtime();
    let history = history.to_vec();
    rt.block_on(async move {
        let mut w = World::new(16);
        let mut m = Model::default();
        let mut viol: Vec<Violation> = Vec::new();
        let mut sends: Vec<SendRec> = Vec::new();
        let mut n_notices = 0usize;
        let mut seq: u8 = 0;
        let mut i = 0;
        let mut group_no = 0usize;
        let mut key_at_group_start = String::new();
        let mut fifo: BTreeMap<(usize, usize), usize> = BTreeMap::new();
        while i < history.len() {
            // collect the group
            let mut j = i;
            while j < history.len() && !history[j].settle {
                j += 1;
            }
            let group: Vec<Op> = history[i..=j.min(history.len() - 1)].iter().map(|s| s.op.clone()).collect();
            let last_index = j.min(history.len() - 1);
            let exact = group.len() == 1;
            group_no += 1;
            key_at_group_start = model_key(&m);
            // ---- model bookkeeping before / while applying the stimuli ----
            let before = m.clone();
            // expected notices in exact mode: conn -> multiset of Obs
            let mut expect: BTreeMap<usize, Vec<Obs>> = BTreeMap::new();
            // allowed notices in relaxed mode
            let mut displaced_in_group: BTreeSet<usize> = BTreeSet::new();
            let mut entries_removed_in_group: BTreeSet<usize> = BTreeSet::new();
            let mut ending: BTreeSet<usize> = BTreeSet::new();
            let mut shutdown_in_group = false;
            let mut touched_ids: BTreeSet<usize> = BTreeSet::new();
            let mut conn_id_proj = m.conn_id.clone();
            for op in &group {
                match op {
                    Op::Connect { id, .. } => {
                        conn_id_proj.push(*id);
                        touched_ids.insert(*id);
                    }
                    Op::Disc { id, .. } => {
                        touched_ids.insert(*id);
                    }
                    Op::Close(c) | Op::Err(c) => {
                        touched_ids.insert(conn_id_proj[*c]);
                    }
                    Op::Send { .. } | Op::SendShape { .. } => {}
                    Op::Shutdown => {
                        for id in 0..8 {
                            touched_ids.insert(id);
                        }
                    }
                }
            }
            for op in &group {
                match op {
                    Op::Connect { id, v1 } => {
                        if let Some(prev) = m.active(*id) {
                            expect.entry(prev).or_default().push(Obs::Notice("same-id".into()));
                            displaced_in_group.insert(prev);
                        }
                        let c = w.connect(*id, *v1);
                        apply_structural(&mut m, op);
                        assert_eq!(c, m.conn_id.len() - 1);
                        // every in-flight send of this group addressed to id may now reach the new connection
                        for s in sends.iter_mut().filter(|s| s.group == group_no && s.to == *id) {
                            s.window_active.insert(c);
                        }
                    }
                    Op::Close(c) => {
                        w.push_in(*c, In::Eof);
                        ending.insert(*c);
                    }
                    Op::Err(c) => {
                        w.push_in(*c, In::Err);
                        ending.insert(*c);
                    }
                    Op::Disc { id, conn } => {
                        let conn_id = conn.map(|c| w.conns[c].conn_id);
                        let found = w.clients.disconnect(crate::relaynet::id(*id), conn_id);
                        let targets: Vec<usize> = m.reg.get(id).cloned().unwrap_or_default().into_iter().filter(|c| conn.is_none() || conn == &Some(*c)).collect();
                        // C06/C08-adjacent: the request reports whether a matching registered connection exists
                        if exact && found != !targets.is_empty() {
                            viol.push(Violation { prop: "C06", what: format!("disconnect({id},{conn:?}) returned {found}, registry model has targets {targets:?}"), at_step: last_index });
                        }
                        for c in targets {
                            ending.insert(c);
                        }
                    }
                    Op::Shutdown => {
                        let targets: Vec<usize> = m.reg.values().flatten().copied().collect();
                        let c = w.clients.clone();
                        let mut fut = Box::pin(async move { c.shutdown().await });
                        // first poll: removes every entry and cancels every connection; no actor has run yet
                        let waker = std::task::Waker::noop();
                        let _ = std::future::Future::poll(fut.as_mut(), &mut std::task::Context::from_waker(waker));
                        tokio::spawn(fut);
                        for c in targets {
                            ending.insert(c);
                        }
                        // the registry is empty from this instant on (later connects of this group displace nothing)
                        shutdown_in_group = true;
                        m.reg.clear();
                    }
                    Op::Send { .. } | Op::SendShape { .. } => {
                        let (from, to) = match op {
                            Op::Send { from, to, .. } | Op::SendShape { from, to, .. } => (from, to),
                            _ => unreachable!(),
                        };
                        seq = seq.wrapping_add(1);
                        let (ecn, seg, contents) = match op {
                            Op::Send { batch: true, .. } => (3u8, Some(2u16), vec![seq, 0xb1, 0xb2, 0xb3, 0xb4]),
                            Op::Send { .. } => (0u8, None, vec![seq, 0xa0]),
                            Op::SendShape { ecn, seg, len, .. } => {
                                let mut c = vec![seq];
                                c.extend((1..*len).map(|i| (i % 251) as u8));
                                (*ecn, if *seg == 0 { None } else { Some(*seg) }, c)
                            }
                            _ => unreachable!(),
                        };
                        w.send_msg(*from, &datagram_msg(*to, ecn, seg, &contents));
                        let mut window_active = BTreeSet::new();
                        if let Some(a) = m.active(*to) {
                            window_active.insert(a);
                        }
                        sends.push(SendRec { from_conn: *from, src: m.conn_id[*from], to: *to, ecn, seg, contents, window_active, must: None, delivered: None, group: group_no });
                    }
                }
            }
            // registry effects of the endings, evaluated at quiescence
            // (exact mode: a single stimulus, so the order is unambiguous)
            if exact {
                // the send (if any) is evaluated against the registry before endings (a group of one op has either a send or endings)
                for s in sends.iter_mut().filter(|s| s.group == group_no) {
                    let from_alive = !before.ended.contains(&s.from_conn) && !before.client_closed.contains(&s.from_conn);
                    let target = if from_alive { before.active(s.to) } else { None };
                    s.must = Some(target);
                    if let Some(_t) = target {
                        m.sent_to.entry(s.src).or_default().insert(s.to, Tri::Yes);
                    }
                }
            } else {
                // stimuli are applied before any actor runs: when a send is accepted all connects of the group
                // are registered, and any suffix of the destination's connections may already have ended
                for s in sends.iter_mut().filter(|s| s.group == group_no) {
                    let l = m.reg.get(&s.to).cloned().unwrap_or_default();
                    for (k, c) in l.iter().enumerate() {
                        if l[k + 1..].iter().all(|x| ending.contains(x)) {
                            s.window_active.insert(*c);
                        }
                    }
                }
                for s in sends.iter_mut().filter(|s| s.group == group_no) {
                    // racing with registry changes of the destination or with the sender's own ending: outcome free
                    let racy = touched_ids.contains(&s.to) || ending.contains(&s.from_conn) || touched_ids.contains(&s.src);
                    if racy {
                        if !s.window_active.is_empty() {
                            let e = m.sent_to.entry(s.src).or_default();
                            if e.get(&s.to) != Some(&Tri::Yes) {
                                e.insert(s.to, Tri::Maybe);
                            }
                        }
                    } else {
                        let target = before.active(s.to);
                        s.must = Some(target);
                        if target.is_some() {
                            m.sent_to.entry(s.src).or_default().insert(s.to, Tri::Yes);
                        }
                    }
                }
            }
            // apply endings to the model; compute notices
            let ids_of_ending: BTreeSet<usize> = ending.iter().map(|c| m.conn_id[*c]).collect();
            for id in ids_of_ending {
                let was_active = m.active(id);
                for c in ending.iter().filter(|c| m.conn_id[**c] == id).copied().collect::<Vec<_>>() {
                    if matches!(group.iter().find(|o| matches!(o, Op::Close(x) | Op::Err(x) if *x == c)), Some(_)) {
                        m.client_closed.insert(c);
                    }
                    end_conn_quiet(&mut m, c);
                }
                match m.active(id) {
                    Some(now) if Some(now) != was_active => {
                        expect.entry(now).or_default().push(Obs::Notice("healthy".into()));
                    }
                    Some(_) => {}
                    None if shutdown_in_group => {
                        // Clients::shutdown removes the entries itself; the actors' later unregister calls find nothing,
                        // so no peer-gone notice is sent and the sent-to record stays behind. The statement allows a
                        // later incarnation's departure to be announced to those peers ("clients it had sent to"), so
                        // the record is kept as optional.
                        entries_removed_in_group.insert(id);
                        if let Some(peers) = m.sent_to.get_mut(&id) {
                            for t in peers.values_mut() {
                                *t = Tri::Maybe;
                            }
                        }
                    }
                    None => {
                        entries_removed_in_group.insert(id);
                        if let Some(peers) = m.sent_to.remove(&id) {
                            for (p, tri) in peers {
                                if let Some(a) = m.active(p) {
                                    if tri == Tri::Yes && exact {
                                        expect.entry(a).or_default().push(Obs::Gone(Some(id)));
                                    } else {
                                        // optional notice
                                        expect.entry(a).or_default().push(Obs::Other(format!("optional-gone:{id}")));
                                    }
                                }
                            }
                        }
                    }
                }
            }
            settle().await;
            // ---- observe ----
            for c in 0..w.conns.len() {
                let obs = w.drain(c);
                let mut exp = expect.remove(&c).unwrap_or_default();
                for o in obs {
                    match &o {
                        Obs::Datagrams { src, ecn, seg, contents } => {
                            // C04: unique matching earlier send addressed to this connection's id
                            let my_id = m.conn_id[c];
                            let hit = sends.iter_mut().enumerate().find(|(_, s)| s.delivered.is_none() && s.to == my_id && &s.contents == contents);
                            match hit {
                                None => viol.push(Violation { prop: "C04", what: format!("conn {c} (id {my_id}) received a datagram matching no undelivered send addressed to it: {o:?}"), at_step: last_index }),
                                Some((sidx, s)) => {
                                    s.delivered = Some(c);
                                    let prev = fifo.insert((s.from_conn, c), sidx);
                                    if prev.map(|p| p > sidx).unwrap_or(false) {
                                        viol.push(Violation { prop: "C04", what: format!("datagrams from conn {} to conn {c} were reordered", s.from_conn), at_step: last_index });
                                    }
                                    if *src != Some(s.src) {
                                        viol.push(Violation { prop: "C04", what: format!("datagram delivered with source {src:?}, authenticated sender id is {}", s.src), at_step: last_index });
                                    }
                                    if *ecn != s.ecn || *seg != s.seg {
                                        viol.push(Violation { prop: "C04", what: format!("ECN/segment size changed in transit: sent ({},{:?}) got ({ecn},{seg:?})", s.ecn, s.seg), at_step: last_index });
                                    }
                                    if s.group != group_no {
                                        viol.push(Violation { prop: "C04", what: format!("datagram of an earlier quiescent step delivered late at conn {c}"), at_step: last_index });
                                    }
                                    match s.must {
                                        Some(Some(t)) if t != c => viol.push(Violation { prop: "C04", what: format!("datagram for id {} delivered on conn {c}, but the destination's active connection when accepted was {t}", s.to), at_step: last_index }),
                                        Some(None) => viol.push(Violation { prop: "C04", what: format!("datagram delivered on conn {c} although no destination/sender connection existed"), at_step: last_index }),
                                        None if !s.window_active.contains(&c) => viol.push(Violation { prop: "C04", what: format!("datagram for id {} delivered on conn {c}, which was never the active connection while it was in flight ({:?})", s.to, s.window_active), at_step: last_index }),
                                        _ => {}
                                    }
                                }
                            }
                        }
                        Obs::Notice(_) | Obs::Gone(_) => {
                            n_notices += 1;
                            if let Some(pos) = exp.iter().position(|e| e == &o) {
                                exp.remove(pos);
                            } else if let (Obs::Gone(Some(g)), Some(pos)) = (&o, exp.iter().position(|e| matches!((e, &o), (Obs::Other(t), Obs::Gone(Some(g))) if t == &format!("optional-gone:{g}")))) {
                                let _ = g;
                                exp.remove(pos);
                            } else if exact {
                                viol.push(Violation { prop: "C06", what: format!("conn {c} received unexpected notice {o:?} (expected {exp:?})"), at_step: last_index });
                            } else {
                                // relaxed: only notices that some order of the group's stimuli can produce
                                let ok = match &o {
                                    Obs::Notice(n) if n == "same-id" => displaced_in_group.contains(&c),
                                    Obs::Notice(n) if n == "healthy" => displaced_in_group.contains(&c) || before.reg.get(&m.conn_id[c]).map(|l| l.contains(&c) && l.last() != Some(&c)).unwrap_or(false),
                                    Obs::Gone(Some(g)) => entries_removed_in_group.contains(g) && before.sent_to.get(g).map(|p| p.contains_key(&m.conn_id[c])).unwrap_or(false) || sends.iter().any(|s| s.group == group_no && s.src == *g && s.to == m.conn_id[c]) && entries_removed_in_group.contains(g),
                                    _ => false,
                                };
                                if !ok {
                                    viol.push(Violation { prop: "C06", what: format!("conn {c} received notice {o:?} that no order of the stimuli {group:?} allows"), at_step: last_index });
                                }
                            }
                        }
                        Obs::Ping | Obs::Pong(_) => {}
                        other => viol.push(Violation { prop: "C04", what: format!("conn {c} received an unexpected frame {other:?}"), at_step: last_index }),
                    }
                }
                // missing mandatory notices (exact mode, connection still open, not ending in this step)
                if exact && !m.ended.contains(&c) {
                    for e in exp {
                        if !matches!(e, Obs::Other(_)) {
                            viol.push(Violation { prop: "C06", what: format!("conn {c} did not receive the expected notice {e:?}"), at_step: last_index });
                        }
                    }
                }
            }
            // exact mode: mandatory deliveries
            for s in sends.iter().filter(|s| s.group == group_no) {
                if let Some(Some(t)) = s.must {
                    if s.delivered != Some(t) && !m.ended.contains(&t) {
                        viol.push(Violation { prop: "C06", what: format!("datagram for id {} was not delivered to its active connection {t} (delivered: {:?})", s.to, s.delivered), at_step: last_index });
                    }
                }
            }
            // C04 order: datagrams from one sender connection to one destination keep their order
            // (checked globally below on the delivered sequence)
            // the relay must have let go of every ended connection, and only of those
            for c in 0..w.conns.len() {
                let dropped = w.server_dropped(c);
                if dropped != m.ended.contains(&c) {
                    viol.push(Violation { prop: "C06", what: format!("conn {c}: relay dropped={dropped}, model ended={}", m.ended.contains(&c)), at_step: last_index });
                }
            }
            i = last_index + 1;
        }
        // implementation-state fingerprint (registry shape as stored + sent-to relation), in harness indices:
        // makes the de-duplication key at least as fine as the implementation state, so that a state the
        // model considers equal but the implementation stores differently is still expanded
        let (freg, fsent) = w.clients.verif_fingerprint();
        let conn_index = |cid: &iroh_relay::server::ConnectionId| w.conns.iter().position(|c| &c.conn_id == cid).map(|i| i as i64).unwrap_or(-1);
        // rename connections in order of first appearance so that isomorphic states coincide
        let mut names: BTreeMap<i64, usize> = BTreeMap::new();
        let mut fp = String::new();
        for (e, conns) in &freg {
            fp.push_str(&format!("{}:[", id_index(e).map(|i| i as i64).unwrap_or(-1)));
            for c in conns {
                let ci = conn_index(c);
                let n = names.len();
                let name = *names.entry(ci).or_insert(n);
                let v1 = if ci >= 0 { m.conn_v1[ci as usize] } else { false };
                fp.push_str(&format!("{name}{} ", if v1 { "v1" } else { "" }));
            }
            fp.push(']');
        }
        for (e, peers) in &fsent {
            fp.push_str(&format!("{}>{:?};", id_index(e).map(|i| i as i64).unwrap_or(-1), peers.iter().map(|p| id_index(p).map(|i| i as i64).unwrap_or(-1)).collect::<Vec<_>>()));
        }
        // ---- probe phase: compare the relay's registry with the model's ----
        let p = w.connect(3, false);
        settle().await;
        for c in 0..w.conns.len() {
            let _ = w.drain(c);
        }
        for id in 0..3usize {
            w.send_msg(p, &datagram_msg(id, 0, None, &[0xee, id as u8]));
            settle().await;
            let want = m.active(id);
            for c in 0..w.conns.len() {
                let got_probe = w.drain(c).iter().any(|o| matches!(o, Obs::Datagrams { contents, src: Some(3), .. } if contents == &vec![0xee, id as u8]));
                if got_probe != (want == Some(c)) {
                    viol.push(Violation { prop: "C06", what: format!("probe for id {id}: conn {c} received={got_probe}, model's active connection is {want:?}"), at_step: history.len() });
                    if got_probe {
                        // a datagram delivered on a connection that is not the destination's active one is a C04 violation too
                        viol.push(Violation { prop: "C04", what: format!("probe datagram for id {id} was delivered on conn {c}, but the destination's active connection is {want:?}"), at_step: history.len() });
                    }
                }
            }
        }
        // access-control view: every ended connection reported exactly once, open ones not at all
        let log = w.access.log.lock().unwrap().clone();
        for c in 0..w.conns.len() - 1 {
            let n = log.iter().filter(|(k, _, cid)| k == "disconnect" && *cid == w.conns[c].conn_id).count();
            let want = usize::from(m.ended.contains(&c));
            if n != want {
                viol.push(Violation { prop: "C06", what: format!("conn {c}: {n} disconnect notifications, expected {want}"), at_step: history.len() });
            }
        }
        // per (sender connection -> destination) FIFO among delivered datagrams: sends are recorded in issue
        // order; deliveries to a connection were observed in order, so compare positions
        // (drain order per connection is the wire order)
        let delivered = sends.iter().filter(|s| s.delivered.is_some()).count();
        let dropped = sends.len() - delivered;
        let key = if history.last().map(|s| !s.settle).unwrap_or(false) {
            // the state is only defined at quiescence: identify the pending tail by the state before its group
            let pending: Vec<&Step> = history.iter().rev().take_while(|s| !s.settle).collect();
            format!("{key_at_group_start}##{pending:?}")
        } else {
            format!("{}~~{fp}", model_key(&m))
        };
        // connections that the client closed but which still exist cannot occur at quiescence; ended ones have no future
        ExecResult { key, violations: viol, delivered, dropped, notices: n_notices }
    })
}

fn model_key(m: &Model) -> String {
    let mut key = String::new();
    for (id, l) in &m.reg {
        key.push_str(&format!("{id}:["));
        for c in l {
            key.push(if m.conn_v1[*c] { '1' } else { '2' });
        }
        key.push(']');
    }
    key.push('|');
    for (id, n) in &m.connects_per_id {
        key.push_str(&format!("{id}#{n},"));
    }
    key.push('|');
    for (s, peers) in &m.sent_to {
        for (p, t) in peers {
            key.push_str(&format!("{s}>{p}{},", if *t == Tri::Yes { "" } else { "?" }));
        }
    }
    key
}

pub fn limits(ctx: &Ctx) -> (Limits, usize) {
    if ctx.thorough() {
        (Limits { max_unsettled: 2, max_conns: BTreeMap::from([(0, 3), (1, 2)]), with_err: true, with_v1: true, with_shutdown: true, dsts: vec![0, 1, 2] }, 6)
    } else {
        (Limits { max_unsettled: 1, max_conns: BTreeMap::from([(0, 3), (1, 1)]), with_err: false, with_v1: true, with_shutdown: true, dsts: vec![0, 1, 2] }, 5)
    }
}

/// Shared driver: explores the history space once and reports the violations of `prop`.
pub fn drive(prop: &'static str) {
    let ctx = Ctx::from_args(prop, Level::ModelChecking);
    ctx.set_rule("breadth-first search over stimulus histories (connect V1/V2, client close, stream error, datagram send single/batch to connected and unconnected ids, disconnect by endpoint / by connection id incl. stale ones; each stimulus with or without running the relay to quiescence afterwards) of the real Clients registry + per-connection actors on a paused-clock single-thread runtime; one execution of the real code per transition; states de-duplicated by the reference model's registry/sent-to state; every execution ends with a probe phase comparing the relay's registry with the model's; distinct = distinct (step shape, outcome) pairs");
    ctx.assume("between two quiescent points the relay's tasks run in tokio's FIFO wake order; interleavings inside one poll are not explored");
    ctx.assume("canonical state = model registry (per id the open connections' versions in registration order), connects used per id, sent-to relation; ended connections have no future");
    ctx.min_outcomes(6);
    if let Some(h) = ctx.replay_case::<Vec<Step>>() {
        let r = exec(&h);
        for v in r.violations.iter().filter(|v| v.prop == prop) {
            ctx.discrepancy(None, &v.what, &h);
        }
        println!("replay: key={} delivered={} dropped={} notices={} violations(all props)={}", r.key, r.delivered, r.dropped, r.notices, r.violations.len());
        ctx.finish();
    }
    let (lim, depth) = limits(&ctx);
    ctx.bound("max_depth", depth);
    ctx.bound("max_connections_per_id", &lim.max_conns);
    ctx.bound("max_unsettled_stimuli_per_history", lim.max_unsettled);
    // pass 0: datagram shapes — every (ECN, segment size, contents length) of a small grid, incl. segment sizes that do
    // not divide the length, exceed it, or leave a short tail, sent once between two connected clients
    {
        let mut shapes = Vec::new();
        for ecn in 0u8..4 {
            for seg in [0u16, 1, 2, 3, 4, 5, 6, 9, 1200, 65535] {
                for len in (1u16..=12).chain([1199, 1200, 1201, 1500, 2399, 2400, 2401]) {
                    shapes.push((ecn, seg, len));
                }
            }
        }
        ctx.bound("shape_pass_shapes", shapes.len());
        par_for_each(&shapes, |&(ecn, seg, len)| {
            for v1 in [false, true] {
                let h = vec![
                    Step { op: Op::Connect { id: 0, v1: false }, settle: true },
                    Step { op: Op::Connect { id: 1, v1 }, settle: true },
                    Step { op: Op::SendShape { from: 0, to: 1, ecn, seg, len }, settle: true },
                ];
                match quiet_catch(|| exec(&h)) {
                    Err(p) => ctx.discrepancy(None, &format!("panic in relay code: {p}"), &h),
                    Ok(r) => {
                        ctx.add_traces(1);
                        ctx.add_transitions(3);
                        ctx.eval(if seg == 0 { "shape:single" } else if (len as u32) <= seg as u32 { "shape:segment>=contents" } else if (len as u32) < 2 * seg as u32 { "shape:one-segment+tail" } else { "shape:batch" }, &format!("deliv={}", r.delivered));
                        for v in r.violations.iter().filter(|v| v.prop == prop) {
                            ctx.discrepancy(None, &format!("{} (shape ecn={ecn} seg={seg} len={len})", v.what), &h);
                        }
                    }
                }
            }
        });
    }
    let menu_fn = |h: &[Step]| menu(h, &lim);
    let exec_fn = |h: &[Step]| -> Option<Step2> {
        let r = quiet_catch(|| exec(h));
        match r {
            Err(p) => {
                if p.contains("p-relay/src") || p.contains("engine/src") {
                    machinery_error(&format!("harness panic on history {h:?}: {p}"));
                }
                ctx.discrepancy(None, &format!("panic in relay code: {p}"), &h.to_vec());
                None
            }
            Ok(r) => {
                let shape = h.last().map(|s| format!("{}{}", op_name(&s.op), if s.settle { "" } else { "+" })).unwrap_or("init".into());
                ctx.eval(&shape, &format!("deliv={} drop={} notices={}", r.delivered.min(2), r.dropped.min(2), r.notices.min(2)));
                if h.len() == 3 {
                    ctx.sample(&format!("history-{shape}"), h);
                }
                for v in r.violations.iter().filter(|v| v.prop == prop) {
                    ctx.discrepancy(None, &format!("{} (step {})", v.what, v.at_step), &h.to_vec());
                }
                Some(vh_engine::Step::<String> { key: r.key, expand: true })
            }
        }
    };
    type Step2 = vh_engine::Step<String>;
    let (_states, d1) = bfs_histories::<Step, String>(&ctx, &menu_fn, &exec_fn, depth, 3_000_000);
    ctx.bound("mixed_pass_depth_completed", d1);
    // second pass: registry-only alphabet (connect / close / disconnect of ONE endpoint id, no sends; the probe
    // phase at the end of every execution observes the registry), more connections and deeper
    let lim2 = Limits { max_unsettled: ctx.pick(0, 1), max_conns: BTreeMap::from([(0, ctx.pick(4, 5))]), with_err: false, with_v1: false, with_shutdown: true, dsts: vec![] };
    let depth2 = ctx.pick(7, 9);
    ctx.bound("registry_pass_max_connections_of_one_id", lim2.max_conns[&0]);
    ctx.bound("registry_pass_max_depth", depth2);
    let menu2 = |h: &[Step]| menu(h, &lim2);
    if ctx.violations() == 0 {
        let (_s2, d2) = bfs_histories::<Step, String>(&ctx, &menu2, &exec_fn, depth2, 3_000_000);
        ctx.bound("registry_pass_depth_completed", d2);
    }
    ctx.finish();
}

fn op_name(op: &Op) -> &'static str {
    match op {
        Op::Connect { v1: true, .. } => "connect-v1",
        Op::Connect { .. } => "connect-v2",
        Op::Close(_) => "close",
        Op::Err(_) => "error",
        Op::Shutdown => "shutdown",
        Op::SendShape { .. } => "send-shape",
        Op::Send { batch: true, .. } => "send-batch",
        Op::Send { .. } => "send",
        Op::Disc { conn: None, .. } => "disc-id",
        Op::Disc { .. } => "disc-conn",
    }
}
