//! Shared scenario for C04–C06 (and parts of C05): the real relay client registry
//! (`iroh_relay::server::clients::Clients`) with the real per-connection actors, driven over
//! frame-level harness streams on a paused-clock single-thread tokio runtime.
//!
//! Every inbound frame, close, error, administrative disconnect, write-credit change and clock
//! advance is a stimulus applied by the harness; between stimuli the runtime is run to quiescence.

use bytes::Bytes;
use iroh_base::{EndpointId, SecretKey};
use iroh_relay::http::ProtocolVersion;
use iroh_relay::protos::relay::{ClientToRelayMsg, Datagrams, RelayToClientMsg, Status};
use iroh_relay::server::client::Config;
use iroh_relay::server::clients::Clients;
use iroh_relay::server::streams::RelayedStream;
use iroh_relay::server::{
    Access, AccessControl, ClientRequest, ConnectionId, DynAccessControl, Metrics, OnDisconnectGuard,
};
use iroh_relay::verif::c04 as codec;
use iroh_relay::KeyCache;
use n0_future::{Sink, Stream};
use serde::{Deserialize, Serialize};
use std::collections::VecDeque;
use std::pin::Pin;
use std::sync::{Arc, Mutex};
use std::task::{Context, Poll, Waker};
use std::time::Duration;

pub enum In {
    Frame(Bytes),
    Eof,
    Err,
}

#[derive(Default)]
pub struct MockShared {
    inbound: VecDeque<In>,
    in_waker: Option<Waker>,
    in_ended: bool,
    pub out: Vec<Bytes>,
    /// None = unlimited write credit
    pub credits: Option<usize>,
    out_waker: Option<Waker>,
    /// the server side dropped the stream (its actor is gone)
    pub dropped: bool,
    pub closed_by_server: bool,
}

/// Frame-level stand-in for the websocket: `Stream<Bytes>` + `Sink<Bytes>`.
pub struct MockWs(pub Arc<Mutex<MockShared>>);

impl Drop for MockWs {
    fn drop(&mut self) {
        self.0.lock().unwrap().dropped = true;
    }
}

impl Stream for MockWs {
    type Item = Result<Bytes, n0_error::AnyError>;
    fn poll_next(self: Pin<&mut Self>, cx: &mut Context<'_>) -> Poll<Option<Self::Item>> {
        let mut g = self.0.lock().unwrap();
        if g.in_ended {
            return Poll::Ready(None);
        }
        match g.inbound.pop_front() {
            Some(In::Frame(b)) => Poll::Ready(Some(Ok(b))),
            Some(In::Eof) => {
                g.in_ended = true;
                Poll::Ready(None)
            }
            Some(In::Err) => {
                g.in_ended = true;
                Poll::Ready(Some(Err(n0_error::anyerr!("harness: injected stream error"))))
            }
            None => {
                g.in_waker = Some(cx.waker().clone());
                Poll::Pending
            }
        }
    }
}

impl Sink<Bytes> for MockWs {
    type Error = n0_error::AnyError;
    fn poll_ready(self: Pin<&mut Self>, cx: &mut Context<'_>) -> Poll<Result<(), Self::Error>> {
        let mut g = self.0.lock().unwrap();
        if g.credits == Some(0) {
            g.out_waker = Some(cx.waker().clone());
            Poll::Pending
        } else {
            Poll::Ready(Ok(()))
        }
    }
    fn start_send(self: Pin<&mut Self>, item: Bytes) -> Result<(), Self::Error> {
        let mut g = self.0.lock().unwrap();
        if let Some(c) = g.credits.as_mut() {
            *c = c.saturating_sub(1);
        }
        g.out.push(item);
        Ok(())
    }
    fn poll_flush(self: Pin<&mut Self>, _cx: &mut Context<'_>) -> Poll<Result<(), Self::Error>> {
        Poll::Ready(Ok(()))
    }
    fn poll_close(self: Pin<&mut Self>, _cx: &mut Context<'_>) -> Poll<Result<(), Self::Error>> {
        self.0.lock().unwrap().closed_by_server = true;
        Poll::Ready(Ok(()))
    }
}

/// Access-control recorder: every callback is logged.
#[derive(Debug, Default)]
pub struct RecAccess {
    pub log: Mutex<Vec<(String, EndpointId, ConnectionId)>>,
}
impl AccessControl for RecAccess {
    async fn on_connect(&self, request: &ClientRequest) -> Access {
        self.log.lock().unwrap().push(("connect".into(), request.endpoint_id(), request.connection_id()));
        Access::Allow
    }
    fn on_disconnect(&self, endpoint_id: EndpointId, connection_id: ConnectionId) {
        self.log.lock().unwrap().push(("disconnect".into(), endpoint_id, connection_id));
    }
}

pub fn key(i: usize) -> SecretKey {
    SecretKey::from_bytes(&[(i as u8) + 1; 32])
}
pub fn id(i: usize) -> EndpointId {
    key(i).public()
}
pub fn id_index(e: &EndpointId) -> Option<usize> {
    (0..8).find(|&i| &id(i) == e)
}

pub struct Conn {
    pub id: usize,
    pub v1: bool,
    pub shared: Arc<Mutex<MockShared>>,
    pub conn_id: ConnectionId,
    read_pos: usize,
}

/// What a client connection observed from the relay (decoded with the real client-side decoder).
#[derive(Debug, Clone, PartialEq, Eq, Serialize, Deserialize)]
pub enum Obs {
    Datagrams { src: Option<usize>, ecn: u8, seg: Option<u16>, contents: Vec<u8> },
    Gone(Option<usize>),
    /// status notice: "healthy" | "same-id" | "rate-limited" | other
    Notice(String),
    Ping,
    Pong(Vec<u8>),
    Other(String),
    Undecodable(String),
}

pub struct World {
    pub clients: Clients,
    pub metrics: Arc<Metrics>,
    pub conns: Vec<Conn>,
    pub access: Arc<RecAccess>,
    pub cache: KeyCache,
    pub channel_capacity: usize,
}

impl World {
    pub fn new(channel_capacity: usize) -> World {
        World {
            clients: Clients::default(),
            metrics: Arc::new(Metrics::default()),
            conns: vec![],
            access: Arc::new(RecAccess::default()),
            cache: KeyCache::new(0),
            channel_capacity,
        }
    }

    /// Register a new connection for identity `idx` (as the embedding API documents).
    pub fn connect(&mut self, idx: usize, v1: bool) -> usize {
        let shared = Arc::new(Mutex::new(MockShared::default()));
        let version = if v1 { ProtocolVersion::V1 } else { ProtocolVersion::V2 };
        let (parts, _) = http::Request::builder().uri("/relay").body(()).unwrap().into_parts();
        let request = ClientRequest::new(id(idx), version, parts);
        let access: Arc<dyn DynAccessControl> = self.access.clone();
        self.access.log.lock().unwrap().push(("connect".into(), id(idx), request.connection_id()));
        let guard = OnDisconnectGuard::for_access_control(access, &request);
        let conn_id = guard.connection_id();
        let stream = RelayedStream::new(MockWs(shared.clone()), self.cache.clone());
        let mut config = Config::new(guard, stream, version);
        config.channel_capacity = self.channel_capacity;
        self.clients.register(config, self.metrics.clone());
        self.conns.push(Conn { id: idx, v1, shared, conn_id, read_pos: 0 });
        self.conns.len() - 1
    }

    pub fn push_in(&mut self, c: usize, item: In) {
        let mut g = self.conns[c].shared.lock().unwrap();
        g.inbound.push_back(item);
        if let Some(w) = g.in_waker.take() {
            w.wake();
        }
    }
    pub fn send_msg(&mut self, c: usize, msg: &ClientToRelayMsg) {
        let b = codec::client_to_relay_bytes(msg).freeze();
        self.push_in(c, In::Frame(b));
    }
    pub fn send_raw(&mut self, c: usize, b: Bytes) {
        self.push_in(c, In::Frame(b));
    }
    pub fn set_credits(&mut self, c: usize, credits: Option<usize>) {
        let mut g = self.conns[c].shared.lock().unwrap();
        g.credits = credits;
        if credits != Some(0) {
            if let Some(w) = g.out_waker.take() {
                w.wake();
            }
        }
    }
    pub fn server_dropped(&self, c: usize) -> bool {
        self.conns[c].shared.lock().unwrap().dropped
    }

    /// Frames written to connection `c` since the last call, decoded as the real client would.
    pub fn drain(&mut self, c: usize) -> Vec<Obs> {
        let conn = &mut self.conns[c];
        let g = conn.shared.lock().unwrap();
        let new: Vec<Bytes> = g.out[conn.read_pos..].to_vec();
        conn.read_pos = g.out.len();
        drop(g);
        let version = if conn.v1 { ProtocolVersion::V1 } else { ProtocolVersion::V2 };
        new.into_iter()
            .map(|b| match codec::relay_to_client_from_bytes(b, &self.cache, version) {
                Ok(RelayToClientMsg::Datagrams { remote_endpoint_id, datagrams }) => Obs::Datagrams {
                    src: id_index(&remote_endpoint_id),
                    ecn: datagrams.ecn.map(|e| e as u8).unwrap_or(0),
                    seg: datagrams.segment_size.map(|s| s.get()),
                    contents: datagrams.contents.to_vec(),
                },
                Ok(RelayToClientMsg::EndpointGone(e)) => Obs::Gone(id_index(&e)),
                Ok(RelayToClientMsg::Status(s)) => Obs::Notice(notice_name(&s)),
                Ok(RelayToClientMsg::Health { problem }) => Obs::Notice(
                    [Status::Healthy, Status::SameEndpointIdConnected, Status::RateLimited]
                        .iter()
                        .find(|s| s.to_string() == problem)
                        .map(notice_name)
                        .unwrap_or(format!("health:{problem}")),
                ),
                Ok(RelayToClientMsg::Ping(_)) => Obs::Ping,
                Ok(RelayToClientMsg::Pong(d)) => Obs::Pong(d.to_vec()),
                Ok(other) => Obs::Other(format!("{other:?}")),
                Err(e) => Obs::Undecodable(format!("{e:#}")),
            })
            .collect()
    }
}

pub fn notice_name(s: &Status) -> String {
    match s {
        Status::Healthy => "healthy".into(),
        Status::SameEndpointIdConnected => "same-id".into(),
        Status::RateLimited => "rate-limited".into(),
        other => format!("{other:?}"),
    }
}

pub fn datagram_msg(dst: usize, ecn: u8, seg: Option<u16>, contents: &[u8]) -> ClientToRelayMsg {
    ClientToRelayMsg::Datagrams {
        dst_endpoint_id: id(dst),
        datagrams: Datagrams {
            ecn: noq_proto::EcnCodepoint::from_bits(ecn),
            segment_size: seg.and_then(std::num::NonZeroU16::new),
            contents: Bytes::copy_from_slice(contents),
        },
    }
}

/// Run to quiescence: under the paused clock this sleep only returns once no task is runnable.
pub async fn settle() {
    tokio::time::sleep(Duration::from_millis(1)).await;
}

pub fn runtime() -> tokio::runtime::Runtime {
    tokio::runtime::Builder::new_current_thread()
        .enable_all()
        .start_paused(true)
        .rng_seed(tokio::runtime::RngSeed::from_bytes(b"verif"))
        .build()
        .unwrap()
}
