# sourced by bin/check and bin/setup
export CARGO_NET_OFFLINE=true
export RUSTFLAGS="--cfg iroh_verif --cfg tokio_unstable -C link-arg=-fuse-ld=lld"
BIN_DIR="$(cd "$(dirname "${BASH_SOURCE[0]}")" && pwd)"
export VERIF_ROOT="${VERIF_ROOT:-$(cd "$BIN_DIR/.." && pwd)}"
export CARGO_TARGET_DIR="${VERIF_TARGET_DIR:-$VERIF_ROOT/target}"
export CARGO_TERM_COLOR=never
HARNESS_DIR="$VERIF_ROOT/harness"
